"""C13 - subscribers get each event exactly once, in order, only while subscribed.

1. TLC design checks of Signal.tla (per-object subscriber tables, proxy reference
   counting keyed by (connection, object, signal), connection FIFO, client
   dispatch filter on service / object / action, forwarding goroutines, failing
   subscriber connections) with the deviations of the code switched OFF: the
   property invariants hold over every interleaving of the bounded
   configurations (2 subscribers on one client / on two signals / on two
   connections / on sibling objects through one client / next to a subscriber
   whose connection breaks; re-subscription, 1-2 emissions, a non-Event message
   addressed like a subscribed signal).  Vacuity guards: each further named
   deviation (filter ignores service / object / action, forwarder ignores the
   message type, emitter stops at the first failed send, blind clean-up) breaks
   its invariant in the model.
2. With the deviations ON (what the code does) TLC searches the shortest
   schedules that violate each invariant (GenSignal, Hunt), the shortest ones
   that reach the situations the routing / failure clauses are about (witnesses:
   an event of a sibling object / of another service / of another action / a
   non-Event message dispatched next to an acknowledged subscriber; a Send
   failing with io.EOF / another error / on a closed end point while healthy
   subscribers are still to be served) and simulates complete schedules;
   (b) the harness forces all of them on the real code with gates at the proxy
   State steps, at RegisterEvent/UnregisterEvent processing and between
   snapshot and Send, on sockets and on a harness-owned stream whose server-side
   writes it can make fail.
3. (c) randomised drivers on the generated Subscribe*/Signal* API (one object;
   sibling objects and services through one client; a connection that breaks).
4. Every execution (gated or random) is recorded - harness events, hook events
   and connection taps in one order - and validated by TLC against
   TraceSignal.tla: the trace must be a behaviour of the specification, and the
   property invariants are evaluated on it.  A violated invariant is a violation
   of C13 by the real code; it is classified by the deviation of the
   specification that is needed to explain the trace.  A trace the code model
   cannot explain is validated once more with one of the further deviations
   switched on (diagnosis: names the clause that broke).
Self-test: corrupted traces must be rejected.
"""
import json, os, random, re
from vlib import Infra, log

INVS = ["NoDuplicate", "InOrderNoGap", "Complete", "NoForeignSignal", "ClosedAfterCancel",
        "NothingAfterUnregisterAck", "OthersUndisturbed", "RemovedAtMostOnce", "NoDeadRegistration"]
PROBES = {"MCSignal_probe.cfg": ["Dev_FilterIgnoresService", "Dev_FilterIgnoresObject", "Dev_FilterIgnoresAction",
                                 "Dev_ForwardIgnoresType"],
          "MCSignal_probe_fail.cfg": ["Dev_StopAtFirstFailedSend", "Dev_CleanupRemovesBlindly",
                                      "Dev_UnregIgnoresConnection"]}
BREAKS = {"Dev_StopAtFirstFailedSend": "Complete", "Dev_CleanupRemovesBlindly": "RemovedAtMostOnce",
          "Dev_UnregIgnoresConnection": "OthersUndisturbed"}


def export(r, path, mode="a"):
    n = 0
    with open(path, mode) as f:
        for v in r.printed("G"):
            f.write(json.dumps({"K": "G", "V": v}) + "\n")
            n += 1
    return n


def split(path):
    """scenarios of a trace file (each ends with reset)"""
    sc, cur = [], []
    for l in open(path).read().splitlines():
        if not l.strip():
            continue
        cur.append(l)
        if '"e":"reset"' in l:
            sc.append(cur)
            cur = []
    if cur:
        raise Infra("trace %s does not end with reset" % path)
    return sc


def tlc_trace(ctx, scen, what, cfg="TraceSignal.cfg", count=True, first=False):
    """validate the scenarios; returns per scenario None (not consumed) or (the set of
    violated invariants, the set of deviations needed) common to every way TLC can
    explain it (first=True: of the first way found - diagnosis only)."""
    res = [None] * len(scen)
    todo = list(range(len(scen)))
    rounds = 0
    while todo and rounds < 8:
        rounds += 1
        if rounds == 2 and cfg == "TraceSignal.cfg":
            # a scenario was not explained: the ones behind it in one more run in which a scenario may
            # be passed over (same constants; the explained ones are those with a verdict line)
            for i, v in zip(todo, tlc_skip(ctx, [scen[i] for i in todo], what + "-rest")):
                res[i] = v
            break
        p = ctx.path("c13-%s-%s-%d.ndjson" % (what, cfg.replace(".cfg", ""), rounds))
        ends, n = [], 0
        with open(p, "w") as f:
            for i in todo:
                f.write("\n".join(scen[i]) + "\n")
                n += len(scen[i])
                ends.append(n)
        r = ctx.tlc("TraceSignal", cfg, workers=1, dfs=True, env={"TRACE": p}, count=count,
                    name="%s:%s" % (cfg, what), timeout=2400)
        m = None
        for m in re.finditer(r'<<"HWM", (\d+), (\d+)>>', r.out):
            pass
        if not m:
            raise Infra("TraceSignal printed no high-water mark:\n" + r.out[-1500:])
        mark = int(m.group(1))
        viol = {}
        for v in r.printed("VIOL"):
            viol.setdefault(int(v["l"]), []).append((frozenset(v["bad"]), frozenset(v["dev"])))
        nxt = []
        for k, i in enumerate(todo):
            if ends[k] < mark:            # its reset line was consumed
                sets = viol.get(ends[k])
                if not sets:
                    raise Infra("scenario %d consumed but no verdict printed" % i)
                if first:
                    sets = sets[:1]
                res[i] = (frozenset.intersection(*[b for b, _ in sets]),
                          frozenset.intersection(*[d for _, d in sets]))
            else:
                # this one holds the first unexplained event; the following are re-run
                nxt = todo[k + 1:]
                break
        todo = nxt
    return res


def tlc_skip(ctx, scen, what):
    """one run over scenarios each of which may be passed over (TraceSignal_skip.cfg); per scenario None
    (no behaviour of the specification) or (violated invariants, deviations) as tlc_trace"""
    p = ctx.path("c13-%s-skip.ndjson" % what)
    ends, n = [], 0
    with open(p, "w") as f:
        for sc in scen:
            f.write("\n".join(sc) + "\n")
            n += len(sc)
            ends.append(n)
    r = ctx.tlc("TraceSignal", "TraceSignal_skip.cfg", workers=1, dfs=True, env={"TRACE": p}, count=False,
                name="TraceSignal_skip.cfg:" + what, timeout=2400)
    m = re.search(r'<<"HWM", (\d+), (\d+)>>', r.out)
    if not m or int(m.group(1)) <= n:
        raise Infra("TraceSignal_skip did not reach the end of the trace:\n" + r.out[-1500:])
    viol = {}
    for v in r.printed("VIOL"):
        viol.setdefault(int(v["l"]), []).append((frozenset(v["bad"]), frozenset(v["dev"])))
    out = []
    for e in ends:
        sets = viol.get(e)
        out.append(None if not sets else (frozenset.intersection(*[b for b, _ in sets]),
                                          frozenset.intersection(*[d for _, d in sets])))
    return out


def judge(ctx, scen, verdicts, what, meta=None):
    hit = {}
    diagnosed = 0
    for i, v in enumerate(verdicts):
        if v is not None and not v[0]:
            continue
        info = {"source": what, "scenario": i, "trace": scen[i][:400]}
        if meta:
            info.update(meta[i])
        if v is None:
            # diagnosis (first few only): is it a behaviour of the specification with ONE further
            # deviation switched on?
            extra, d = [], None
            if diagnosed < 3:
                diagnosed += 1
                d = tlc_trace(ctx, [scen[i]], "diag-%s-%d" % (what, i), cfg="TraceSignal_diag.cfg", count=False,
                              first=True)[0]
                extra = sorted(d[1] - {"Dev_ProxySectionsNotAtomic", "Dev_SendAfterSnapshot"}) if d else []
            if extra:
                info = dict(info, diagnosis=extra, diagnosis_invariants=sorted(d[0]))
                for inv in sorted(d[0]):
                    ctx.failure(inv, "%s scenario %d violates %s; explained only by %s (a deviation the code is not "
                                "known to have)" % (what, i, inv, "+".join(extra)),
                                dict(info, invariant=inv, needs="diagnosis:" + "+".join(sorted(d[1]))))
            ctx.failure("trace/unexplained", "%s scenario %d is not a behaviour of Signal.tla (deviations of the code "
                        "included)%s" % (what, i, "; it is one with " + "+".join(extra) if extra else ""), info)
            continue
        n = "+".join(sorted(v[1]))
        if n == "":
            raise Infra("%s scenario %d violates %s without any deviation of the specification" % (what, i, sorted(v[0])))
        for inv in sorted(v[0]):
            c = dict(info, invariant=inv, needs=n)
            ctx.failure(inv, "%s scenario %d violates %s; explained by %s" % (what, i, inv, n), c)
            hit[inv + "/" + n] = hit.get(inv + "/" + n, 0) + 1
    return hit


def harness_or_crash(ctx, args, what, timeout=3000):
    """the signal harness runs qiloop in its own process: if that process dies of a panic or a fatal error of the
    Go runtime the death is a verdict (the tree is broken), not an infrastructure error"""
    import re
    rc, out, err = ctx.harness("signal", args, check=False, timeout=timeout)
    if rc != 0:
        m = re.search(r"^(panic: .*|fatal error: .*)$", err, re.M)
        if m:
            site = re.search(r"^(github.com/lugu/qiloop/[^\s(]+)", err[m.end():], re.M)
            ctx.failure("signal/crash", "%s: the process died: %s%s" % (what, m.group(1), (" in " + site.group(1)) if site else ""),
                        {"what": what, "stderr": err[-1500:]})
            return None
        raise Infra("harness signal %s exited %d:\n%s" % (what, rc, err[-3000:]))
    try:
        return json.loads(out)
    except Exception:
        raise Infra("harness signal %s: bad output\n%s" % (what, out[-1000:]))


def core(ctx):
    thorough = ctx.tier == "thorough"
    rnd = random.Random(ctx.seed)

    # ---- 1. design: the property holds for the conforming design --------------------
    # one object (2 subscribers on one client / two signals / two connections), sibling objects through
    # one client, a non-Event message addressed like the subscribed signal, a subscriber connection that
    # breaks next to a healthy one, an unregisterEvent that names another connection's registration
    for cfg in (["MCSignal.cfg", "MCSignal_sig.cfg", "MCSignal_conn.cfg", "MCSignal_2.cfg",
                 "MCSignal_obj.cfg", "MCSignal_inj.cfg", "MCSignal_rogue.cfg", "MCSignal_fail.cfg"] +
                (["MCSignal_thorough.cfg", "MCSignal_obj2.cfg", "MCSignal_svc.cfg", "MCSignal_objconn.cfg",
                  "MCSignal_fail2.cfg"] if thorough else [])):
        ctx.design_check("Signal", cfg, workers=8, timeout=2700, coverage=(thorough and cfg == "MCSignal_2.cfg"))
    ctx.design_check("Signal", "MCSignal_live.cfg", workers=4, timeout=900)
    # nothing blocks: an emit call returns whatever happens to the subscribers' connections
    ctx.design_check("Signal", "MCSignal_fail_live.cfg" if thorough else "MCSignal_fail_live1.cfg", workers=4, timeout=1800)
    # vacuity guards: each named deviation breaks its invariant (model only; the code has none of them)
    for cfg, devs in PROBES.items():
        r = ctx.tlc("Signal", cfg, workers=1, count=False, expect_ok=False, timeout=900, seed=ctx.seed,
                    simulate=("num=200000" if cfg == "MCSignal_probe.cfg" else None), depth=(400 if cfg == "MCSignal_probe.cfg" else None))
        seen = set(re.findall(r'<<"PROBE", "(\w+)">>', r.out))
        if set(devs) - seen or "ProbePending" not in r.out:
            raise Infra("vacuity guard %s: %s did not break their invariant" % (cfg, sorted(set(devs) - seen)))
        for d in devs:
            ctx.model_only.append("%s breaks %s (%s)" % (d, BREAKS.get(d, "NoForeignSignal"), cfg))

    # ---- 2. schedules: hunts (deviations on) + simulation ------------------------------
    sp = ctx.path("c13-sched.ndjson")
    open(sp, "w").close()
    hunts = {}
    for inv, cfg in (("NoDuplicate", "GenSignal_hunt_dup.cfg"), ("Complete", "GenSignal_hunt_complete.cfg"),
                     ("NothingAfterUnregisterAck", "GenSignal_hunt_late.cfg"),
                     ("InOrderNoGap", "GenSignal_hunt_gap.cfg")):
        r = ctx.tlc("GenSignal", cfg, workers=4, count=False, expect_ok=False, timeout=900)
        if "HuntOpen" not in r.violated:
            raise Infra("the code model no longer violates %s (%s): %s" % (inv, cfg, r.violated))
        hunts[inv] = export(r, sp)
        if hunts[inv] == 0:
            raise Infra("hunt %s exported nothing" % inv)
    # witnesses: the shortest schedules that reach the situations the routing / failure clauses are about
    for name, cfg, want in (("W_foreign", "GenSignal_hunt_foreign.cfg",
                             ["W_SiblingObjectEvent", "W_OtherServiceEvent", "W_OtherActionEvent", "W_NonEvent",
                              "W_RogueUnregister"]),
                            ("W_fail", "GenSignal_hunt_fail.cfg",
                             ["W_FailedSendNotLast_eof", "W_FailedSendNotLast_err", "W_FailedSendNotLast_down",
                              "W_SnapshotOfBroken"])):
        r = ctx.tlc("GenSignal", cfg, workers=1, count=False, expect_ok=False, timeout=900)
        got = set(w for v in r.printed("G") for w in v["bad"])
        if "HuntOpen" not in r.violated or set(want) - got:
            raise Infra("witness hunt %s: missing %s" % (cfg, sorted(set(want) - got)))
        hunts[name] = export(r, sp)
    nsim = 0
    nnum = 400 if thorough else 40
    for k, (cfg, num) in enumerate((("GenSignal.cfg", nnum), ("GenSignal_mixed.cfg", nnum), ("GenSignal_pair.cfg", nnum),
                                    ("GenSignal_obj.cfg", nnum // 2), ("GenSignal_svc.cfg", nnum // 2),
                                    ("GenSignal_fail.cfg", nnum // 2), ("GenSignal_fail2.cfg", nnum // 2))):
        r = ctx.tlc("GenSignal", cfg, workers=1, count=False, simulate="num=%d" % num,
                    depth=500, seed=ctx.seed * 10 + k, timeout=1200)
        nsim += export(r, sp)
    if nsim < 150:
        raise Infra("simulation exported %d schedules" % nsim)
    gt = ctx.path("c13-gated.trace")
    rg = harness_or_crash(ctx, ["c13-gated", sp, gt], "c13-gated")
    if rg is None:
        return        # the process running the real code died: reported; nothing more to learn from this tree here
    index = rg["extra"].pop("index")
    ctx.extra.update(rg["extra"])
    scen = split(gt)
    if len(scen) != rg["evaluations"]:
        raise Infra("%d schedules, %d recorded scenarios" % (rg["evaluations"], len(scen)))
    verd = tlc_trace(ctx, scen, "gated")
    hit = judge(ctx, scen, verd, "gated", meta=[{"predicted": x["bad"], "stuck_at": x["stuck_at"]} for x in index])
    ctx.traces += len(scen)
    agree = reproduced = 0
    for i, x in enumerate(index):
        if verd[i] is None:
            continue
        pred = frozenset(x["bad"]) & frozenset(INVS)
        if pred == verd[i][0]:
            agree += 1
            if pred:
                reproduced += 1
        elif x["stuck_at"] < 0 and pred - verd[i][0]:
            ctx.model_only.append("schedule %d: model predicts %s, the real run shows %s" %
                                  (i, sorted(pred), sorted(verd[i][0])))
    ctx.extra.update({"c13_schedules_hunted": hunts, "c13_schedules_simulated": nsim,
                      "c13_gated_prediction_agrees": agree, "c13_gated_violations_reproduced": reproduced,
                      "c13_gated_classes": hit})
    if rg["samples"]:
        ctx.sample(rg["samples"][0])

    # ---- 3. randomised drivers -----------------------------------------------------------
    rt = ctx.path("c13-rec.trace")
    nrec = 1200 if thorough else 96
    rr = harness_or_crash(ctx, ["c13-record", rt, str(nrec)], "c13-record")
    if rr is None:
        return
    rr["extra"].pop("index", None)
    ctx.extra.update(rr["extra"])
    rscen = split(rt)
    if len(rscen) != rr["evaluations"]:
        raise Infra("%d scenarios recorded, %d in the trace" % (rr["evaluations"], len(rscen)))
    # (the harness stops early when scenario after scenario runs into the bounds of its waits - a broken
    #  tree; what was recorded until then is validated like the rest; the counts are in the evidence)
    rverd = tlc_trace(ctx, rscen, "recorded")
    rhit = judge(ctx, rscen, rverd, "recorded")
    ctx.traces += len(rscen)
    ctx.extra["c13_recorded_classes"] = rhit
    ctx.extra["c13_recorded_clean"] = sum(1 for v in rverd if v is not None and not v[0])
    if rscen:
        ctx.sample({"scenario": [json.loads(x) for x in rscen[0][:16]]})

    # ---- 4. self-test: corrupted traces must not pass ------------------------------------------
    # (the shortest clean scenario a corruption applies to)
    cleanall = sorted([s for s, v in zip(rscen, rverd) if v is not None and not v[0]] +
                      [s for s, v in zip(scen, verd) if v is not None and not v[0]], key=len)
    clean = [s for s in cleanall if any('"e":"recv"' in l for l in s)]
    tried = caught = 0
    missed, corrupted, unapplied = [], [], []

    def subscribed_at(s, th, k):
        """thread th is acknowledged and has not asked to cancel at line k"""
        on = False
        for l in s[:k]:
            x = json.loads(l)
            if x.get("th") == th:
                if x["e"] == "suback" and x.get("ok") == 1:
                    on = True
                elif x["e"] in ("cancelcall", "subcall"):
                    on = False
            if x.get("e") == "break" and CONN[th] == x.get("c"):
                on = False
        return on

    def after_break(s):
        """the sendfail lines of emissions that took their snapshot after the break of the connection"""
        out, broke, snap_after = [], set(), set()
        for k, l in enumerate(s):
            x = json.loads(l)
            if x.get("e") == "break":
                broke.add(x["c"])
            elif x.get("e") == "snapshot":
                snap_after = set(broke)
            elif x.get("e") == "sendfail" and x["c"] in snap_after:
                out.append(k)
        return out

    CONN = {"t1": "c1", "t2": "c1", "t3": "c1", "t4": "c2", "t5": "c2", "t6": "c1", "t7": "c2", "t8": "c1",
            "t9": "c3", "t10": "c3"}
    for mode in ("dup-recv", "drop-recv-mid", "renumber", "drop-wire", "foreign", "no-close",
                 "sibling-object", "other-service", "non-event", "drop-sendfail", "send-after-break", "rogue-removes"):
        if ctx.violations:
            # the tree is broken: what it recorded is no material for a self-test of the binding
            break
        for s in (cleanall if mode in ("drop-sendfail", "send-after-break", "rogue-removes", "non-event") else clean):
            recv = [k for k, l in enumerate(s) if '"e":"recv"' in l]
            s2 = list(s)
            if mode == "dup-recv":
                k = recv[rnd.randrange(len(recv))]
                s2.insert(k, s2[k])
            elif mode == "drop-recv-mid":
                # a received event vanishes while a later one of the same thread stays (both inside one
                # subscription: an unread event at a cancel is legal; the vanished one emitted after the
                # subscription was acknowledged: one racing the subscription may legally be missed)
                pair = None
                last, acked, emitted_at = {}, {}, {}
                for k, l in enumerate(s):
                    x = json.loads(l)
                    if x.get("e") in ("closed", "subcall"):
                        last.pop(x["th"], None)
                        acked.pop(x["th"], None)
                    elif x.get("e") == "suback":
                        acked[x["th"]] = k
                    elif x.get("e") == "emitcall":
                        emitted_at[x["k"]] = k
                    elif x.get("e") == "break":
                        for th in [t for t in last if CONN[t] == x["c"]]:
                            last.pop(th)
                    elif x.get("e") == "recv":
                        if x["th"] in last:
                            pair = last[x["th"]]
                            break
                        if x["th"] in acked and emitted_at.get(x["k"], -1) > acked[x["th"]]:
                            last[x["th"]] = k
                if pair is None:
                    continue
                del s2[pair]
            elif mode == "renumber":
                k = recv[rnd.randrange(len(recv))]
                x = json.loads(s2[k]); x["k"] = x["k"] + 7; s2[k] = json.dumps(x, separators=(",", ":"))
            elif mode == "drop-wire":
                w = [k for k, l in enumerate(s) if '"t":"ev"' in l]
                if not w:
                    continue
                del s2[w[0]]
            elif mode == "foreign":
                # an event attributed to a subscriber of the other signal (same object, same connection)
                k = recv[rnd.randrange(len(recv))]
                x = json.loads(s2[k])
                x["th"] = {"t1": "t3", "t2": "t3", "t4": "t5", "t3": "t1", "t5": "t4", "t6": "t3", "t7": "t5",
                           "t8": "t3", "t9": "t5", "t10": "t5"}[x["th"]]
                s2[k] = json.dumps(x, separators=(",", ":"))
            elif mode in ("sibling-object", "other-service"):
                # the subscriber of o1 on the same client also "receives" an event of the sibling object o2 /
                # of the object with the same id in the other service
                src = "t6" if mode == "sibling-object" else "t8"
                ks = [k for k in recv if json.loads(s[k])["th"] == src and subscribed_at(s, "t1", k)]
                if not ks:
                    continue
                x = json.loads(s[ks[0]]); x["th"] = "t1"
                s2.insert(ks[0] + 1, json.dumps(x, separators=(",", ":")))
            elif mode == "non-event":
                # the injected non-Event message reaches the subscriber's channel
                ks = [k for k, l in enumerate(s) if '"t":"inj"' in l and '"e":"wire"' in l]
                ks = [k for k in ks for x in [json.loads(s[k])]
                      if x["c"] == "c1" and x["o"] == "o1" and x["sig"] == "A" and subscribed_at(s, "t1", k)]
                if not ks:
                    continue
                s2.insert(ks[0] + 1, '{"e":"recv","k":0,"th":"t1"}')
            elif mode == "drop-sendfail":
                # a failed write of the server is not reported: the emitter cannot have got past it
                # (a write that failed in an emission whose snapshot was taken after the break: before
                # it, an unreported successful write just ahead of the break explains the trace as well)
                ks = [k for k in after_break(s)]
                if not ks:
                    continue
                del s2[ks[0]]
            elif mode == "rogue-removes":
                # the unregisterEvent of another connection succeeds (a removal instead of "unknown user")
                ks = None
                for k, l in enumerate(s):
                    x = json.loads(l)
                    if x.get("e") == "rogue":
                        for k2 in range(k + 1, len(s)):
                            y = json.loads(s[k2])
                            if y.get("e") == "remove_unknown" and y["c"] == x["c"] and y["o"] == x["o"]:
                                ks = (k2, y)
                                break
                        if ks:
                            break
                if not ks:
                    continue
                s2[ks[0]] = json.dumps({"c": ks[1]["c"], "e": "remove", "n": 0, "o": ks[1]["o"]}, separators=(",", ":"))
            elif mode == "send-after-break":
                # an event reaches the broken connection after the break
                ks = after_break(s)
                if not ks:
                    continue
                x = json.loads(s[ks[0]])
                s2[ks[0]] = json.dumps({"c": x["c"], "e": "wire", "o": "o1", "ok": 1, "sig": "A", "t": "ev"},
                                       separators=(",", ":"))
            else:
                c = [k for k, l in enumerate(s) if '"e":"closed"' in l]
                if not c:
                    continue
                del s2[c[-1]]
            corrupted.append((mode, s2))
            if sum(1 for m, _ in corrupted if m == mode) >= 3:
                break
        if not any(m == mode for m, _ in corrupted) and not ctx.violations:
            unapplied.append(mode)
    # one TLC run over all of them (TraceSignal_skip.cfg: a scenario may be passed over; the ones that are
    # behaviours of the specification are those with a verdict line) - plus one intact scenario as control
    if cleanall and corrupted:
        vs = tlc_skip(ctx, [c for _, c in corrupted] + [cleanall[0]], "selftest")
        if vs[-1] is None or vs[-1][0]:
            raise Infra("trace self-test: the intact control scenario was not accepted")
        # a corruption is applied to up to three scenarios: in a particular scenario the corrupted trace may still
        # be a behaviour (the vanished event raced something); the mode counts as rejected if one of them is
        verdicts = {}
        for (mode, c), v in zip(corrupted, vs):
            verdicts.setdefault(mode, []).append((v is None or v[0], c))
        for mode, lst in verdicts.items():
            tried += 1
            if any(ok for ok, _ in lst):
                caught += 1
            else:
                missed.append(mode)
                log("self-test %s accepted in %d scenario(s):\n%s" % (mode, len(lst), "\n".join(lst[0][1][:400])))
    # on a tree without violations every corruption finds a scenario to apply to (the hunted witnesses see
    # to that); with violations around, the clean scenarios may be too few for some
    # (a corruption needs a clean scenario of the right shape: the hunted witnesses provide one for each
    #  unless the timing of that run made it one of the known findings; a few may go without)
    if (not ctx.violations and tried < 9) or caught != tried:
        raise Infra("trace self-test: %d of %d corrupted scenarios rejected (accepted: %s, no scenario for: %s)" %
                    (caught, tried, missed, unapplied))
    ctx.extra["c13_selftest_corrupted_traces_rejected"] = caught
    ctx.extra["c13_selftest_modes_without_scenario"] = unapplied
    ctx.extra["exhaustive"] = True
    ctx.extra["explanation"] = ("exhaustive TLC check of the conforming subscription protocol for 2 subscribers x <= 2 "
                                "events in three placements on one object, on sibling objects through one client, "
                                "with a foreign non-Event message, and next to a subscriber whose connection breaks; "
                                "schedules of the code model (hunted counterexamples, hunted witnesses of the routing "
                                "and failure situations, simulation) forced on the real code with gates; randomised "
                                "drivers; every recorded execution validated by TLC against TraceSignal.tla with the "
                                "property invariants evaluated on it")
    ctx.assumptions += [
        "queues are driven far below their capacity (100): the property is conditional on room",
        "window of a subscriber: emit calls made after Subscribe<X> returned and returned before the cancel "
        "function was called; events at the boundaries may or may not be delivered, never twice inside the window",
        "user ids of registrations are distinct (rand.Int() in the code); the duplicate-id path belongs to C12",
        "a scenario ends after every subscription was cancelled and a call on every connection has returned: "
        "nothing may be in flight then (T_BOUND 5 s / 20 s)",
        "a subscriber connection breaks only while its client has no call in flight; its subscribers are gone "
        "from then on (not accounted); the failing stream is the harness' own (io.EOF or another error from "
        "Write, the reader blocked until the harness ends it)",
        "one emitter: emissions on different objects do not overlap",
    ]



def run(ctx):
    core(ctx)

    # the life of client-side subscriptions sharing a connection: who owns a handler slot (SubLife.tla)
    import ext_sublife
    ext_sublife.run(ctx)

    # the observation modes of a served object (statistics, tracing) and what they do to the message path
    # (ObjectModes.tla, design-notes/EXT-modes.md); classes outside this property's statement are observations
    import ext_modes
    ext_modes.run(ctx)
