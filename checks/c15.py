"""C15 - the service directory is a linearizable registry.

1. TLC design check of Directory.tla (sequential specification; the five invariants of the
   property) and of DirectoryRace.tla (two callers, method bodies split at the points where the
   code has gates: with the lock the invariants hold for every interleaving; without it TLC
   produces the double registration - the schedule c15excl forces on the code).
2. (b) TLC exports one behaviour per transition of the bounded abstract state graph (+ all
   sequences up to depth 3 and a seeded sample of the larger graph in the thorough tier); the
   harness replays each on a fresh directory.NewServer through the remote proxy, the local
   Namespace, Server.NewService/Service.Terminate and a seeded remote/local mix, comparing the
   return value, Services()/Service()/Resolve() and the subscribers' logs after every step.
3. (c) concurrent histories (remote clients + local goroutines + NewService/Terminate) recorded
   as inv/res events in a child process; TraceDirectory.tla decides linearizability.
4. gated mutual-exclusion schedules (c15excl).
Self-tests: a corrupted expectation must fail the replay, a corrupted history must be rejected.
"""
import json, os, random
from vlib import Infra, log


def export(r, tag, path, mode="w", keep=None):
    n = 0
    with open(path, mode) as f:
        for v in r.printed(tag):
            if keep is not None and not keep(v):
                continue
            f.write(json.dumps(v) + "\n")
            n += 1
    return n


def split_histories(path):
    hs, cur = [], None
    for line in open(path):
        if not line.strip():
            continue
        if '"k":"reset"' in line[:40]:
            cur = []
            hs.append(cur)
        if cur is None:
            raise Infra("history file does not start with a reset record")
        cur.append(line)
    return hs


def validate(ctx, hs, name, expect_reject=False):
    """Runs TraceDirectory over the concatenation of the histories hs.
    Returns None if accepted, else the index of the history TLC could not get through."""
    p = ctx.path("%s.ndjson" % name)
    with open(p, "w") as f:
        for h in hs:
            f.writelines(h)
    r = ctx.tlc("TraceDirectory", "TraceDirectory.cfg", workers=1, dfs=True, env={"TRACE": p}, count=False,
                expect_ok=False, timeout=3000, name=name)
    total = sum(len(h) for h in hs)
    hwm = None
    for line in r.out.splitlines():
        if line.startswith('<<"HWM"'):
            hwm = int(line.split(",")[1])
    if hwm is None:
        raise Infra("TraceDirectory did not report its high-water mark:\n" + r.out[-3000:])
    if r.violated:
        # an invariant of the sequential specification cannot break on a trace
        raise Infra("TraceDirectory: invariant violated on a trace: %s" % r.violated)
    if hwm == total + 1:
        if not r.ok:
            raise Infra("TraceDirectory consumed the trace but TLC reports an error:\n" + r.out[-3000:])
        return None, r
    # which history holds record hwm (1-based, the first record not consumed)?
    k = 0
    for i, h in enumerate(hs):
        if hwm <= k + len(h):
            return (i, hwm - k), r
        k += len(h)
    raise Infra("high-water mark %d beyond the trace (%d records)" % (hwm, total))


def validate_all(ctx, hs, tag, klass, batch=500):
    """Validates histories in batches; every rejected history is a failure of class klass."""
    rejected = validated = 0
    first_ok = None
    for b in range(0, len(hs), batch):
        part = hs[b:b + batch]
        while part:
            bad, r = validate(ctx, part, "%s-%d" % (tag, b))
            if bad is None:
                validated += len(part)
                if first_ok is None:
                    first_ok = part[0]
                ctx.states += r.distinct
                ctx.transitions += r.generated
                break
            i, rec = bad
            rejected += 1
            h = [json.loads(x) for x in part[i]]
            ctx.failure(klass,
                        "TLC finds no linearization of this history against Directory.tla (stuck at record %d: %s)" %
                        (rec, json.dumps(h[rec - 1])[:300]),
                        {"history": h[0].get("h"), "seed": ctx.seed, "stuck_at": rec,
                         "trace": [{k: v for k, v in x.items() if k in ("k", "c", "op", "res", "log")} for x in h]})
            validated += i
            part = part[i + 1:]
            if rejected >= 5:
                break       # enough evidence; the remaining histories stay unvalidated
        if rejected >= 5:
            break
    return validated, rejected, first_ok


def run(ctx):
    thorough = ctx.tier == "thorough"
    rnd = random.Random(ctx.seed)

    # 1. design
    ctx.design_check("Directory", "MCDirectory_thorough.cfg" if thorough else "MCDirectory.cfg",
                     workers=10 if thorough else 6, timeout=3000, coverage=thorough)
    # 1a. the same safety core for EVERY set of names, every identifier bound and every number of operations: TLAPS
    # proves that it is an inductive invariant of Directory.tla (spec/proofs/DirectoryProofs.tla: Init => Ind,
    # Ind /\ [Next]_vars => Ind', Spec => []Ind, Ind => NameHeldByAtMostOne / visible iff ready, and the action
    # under the box of IdsStrictlyIncreasingNeverReused for every step from a state of Ind)
    n = ctx.tlaps("DirectoryProofs", timeout=1800)
    ctx.extra["unbounded_proof"] = ("TLAPS: %d obligations proved - the name / visibility / identifier demands of C15 hold in the "
                                    "sequential specification for unbounded names, identifiers and histories (TLC: 3 names, ids <= 4/5); "
                                    "the event accounting (SelectSeq over the emitted sequence) is checked by TLC only" % n)
    ctx.design_check("DirectoryRace", "MCDirectoryRace.cfg", workers=4, timeout=600)
    r = ctx.tlc("DirectoryRace", "MCDirectoryRace_nolock.cfg", workers=4, timeout=600, expect_ok=False, count=False)
    if not set(r.violated) & {"NameHeldByAtMostOne", "IdsUnique", "EventsInOrder"}:
        raise Infra("DirectoryRace without the lock should violate NameHeldByAtMostOne/IdsUnique/EventsInOrder, got %s" % r.violated)
    ctx.extra["race_model"] = ("DirectoryRace.tla: with Locked=TRUE every interleaving of two callers keeps the invariants; "
                               "with Locked=FALSE TLC finds %s (what the code did before the mutex; c15excl forces that "
                               "schedule on the code and requires the second caller to be kept out)" % r.violated)

    # 2. behaviours
    tests = ctx.path("c15-tests.ndjson")
    g = ctx.tlc("GenDirectory", "GenDirectory.cfg", workers=1, count=False, timeout=1200)
    n = export(g, "T", tests)
    nt = n
    if n < 5000:
        raise Infra("transition-coverage export too small: %d" % n)
    if thorough:
        g2 = ctx.tlc("GenDirectory", "GenDirectory_seq.cfg", workers=1, count=False, timeout=1800)
        n += export(g2, "S", tests, "a")
        g3 = ctx.tlc("GenDirectory", "GenDirectory_thorough.cfg", workers=1, count=False, timeout=3000,
                     env={"SEL": str(ctx.seed % 10)})   # seeded 10 % sample of the ids <= 4 graph
        n += export(g3, "T", tests, "a")
    modes = "remote,local,server,mixed"
    res = ctx.harness_json("registry", ["c15seq", tests, modes, "8" if thorough else "6"], timeout=3000)
    if res["evaluations"] < n * 4 and not res.get("failures"):
        raise Infra("harness replayed %d of %d behaviours" % (res["evaluations"], n * 4))
    ctx.traces += res["evaluations"]
    ctx.failures(res["failures"])
    for s in res["samples"][:3]:
        ctx.sample(s)
    ctx.extra.update({"behaviours_exported": n, "transition_tests": nt, "replayed": res["evaluations"],
                      "replay_modes": modes.split(","), "replay_fail_count": res.get("fail_count"),
                      "replay_steps": (res.get("extra") or {}).get("steps")})

    # self-test of the replay: a wrong expectation must be noticed
    st = ctx.path("c15-selftest.ndjson")
    k = 0
    with open(st, "w") as f:
        for line in open(tests):
            t = json.loads(line)
            last = t[-1]
            if last["op"]["op"] == "register" and last["obs"]["ret"]["e"] == "" and k < 1:
                last["obs"]["ret"]["v"] += 1
                f.write(json.dumps(t) + "\n"); k += 1
            elif last["op"]["op"] == "ready" and last["obs"]["ret"]["e"] == "" and k == 1:
                last["obs"]["ev"] = last["obs"]["ev"][:-1]
                f.write(json.dumps(t) + "\n"); k += 1
            elif last["op"]["op"] == "unregister" and last["obs"]["ret"]["e"] == "" and k == 2 and len(last["obs"]["list"]) > 0:
                last["obs"]["list"] = last["obs"]["list"][1:]
                f.write(json.dumps(t) + "\n"); k += 1
            if k == 3:
                break
    if not ctx.violations:
        sres = ctx.harness_json("registry", ["c15seq", st, "remote,local", "1"], timeout=600)
        fc = sres.get("fail_count") or {}
        # every corrupted behaviour must fail in both modes
        if k != 3 or sum(fc.values()) != 6:
            raise Infra("replay self-test: corrupted expectations not all detected: %s" % fc)
        ctx.extra["replay_selftest"] = fc

    # 3. concurrent histories -> linearizability by TLC
    nh = 3000 if thorough else 300
    hp = ctx.path("c15-hist.ndjson")
    cres = ctx.harness_json("registry", ["c15conc", hp, str(nh), "6" if thorough else "4"], timeout=3000)
    ctx.failures(cres["failures"])
    hs = split_histories(hp) if os.path.exists(hp) else []
    crashed = (cres.get("fail_count") or {})
    if len(hs) + sum(crashed.values()) < nh:
        raise Infra("recorded %d histories of %d (failures %s)" % (len(hs), nh, crashed))
    ctx.extra.update({"histories_recorded": len(hs), "history_operations": (cres.get("extra") or {}).get("operations"),
                      "history_fail_count": crashed})
    validated, rejected, first_ok = validate_all(ctx, hs, "c15-lin", "directory/conc/not-linearizable")
    ctx.traces += validated + rejected
    ctx.extra.update({"histories_validated": validated, "histories_rejected": rejected})
    if hs:
        ctx.sample({"history": [json.loads(x) for x in hs[0]][:12]})

    # self-test of the trace specification: corrupted histories must be rejected
    if first_ok is not None and not ctx.violations:
        h = [json.loads(x) for x in first_ok]
        muts = []
        # (a) a successful register returns another id
        for i, x in enumerate(h):
            if x["k"] == "res" and x["op"]["op"] in ("register", "newservice") and x["res"]["e"] == "":
                m = json.loads(json.dumps(h)); m[i]["res"]["v"] += 7; muts.append(("wrong-id", m)); break
        # (b) the subscriber misses / duplicates an event
        ev = h[-1]
        if ev["k"] != "events":
            raise Infra("history does not end with an events record")
        m = json.loads(json.dumps(h)); m[-1]["log"] = m[-1]["log"] + [{"k": "added", "id": 1, "n": "ServiceDirectory"}]
        muts.append(("extra-event", m))
        # (c) the final listing shows something else
        for i in range(len(h) - 1, -1, -1):
            if h[i]["k"] == "res" and h[i]["op"]["op"] == "list":
                m = json.loads(json.dumps(h)); m[i]["res"]["l"] = m[i]["res"]["l"] + [{"id": 99, "name": "zz", "ep": "e1"}]
                muts.append(("wrong-listing", m)); break
        for name, m in muts:
            bad, r = validate(ctx, [[json.dumps(x) + "\n" for x in m]], "c15-lin-selftest-" + name)
            if bad is None:
                raise Infra("trace self-test: corrupted history (%s) accepted by TraceDirectory" % name)
        ctx.extra["trace_selftest"] = [n for n, _ in muts]
        if len(muts) < 2:
            raise Infra("trace self-test could not build its corrupted histories")
    elif not ctx.violations and not ctx.known_hit:
        raise Infra("no history was validated")

    # 4. gated schedules: the first operation is parked inside its critical section while a second
    #    one is started on the other path; the recorded two-operation histories go to TLC as well
    ep = ctx.path("c15-excl.ndjson")
    eres = ctx.harness_json("registry", ["c15excl", ep], timeout=1200)
    ctx.failures(eres["failures"])
    ehs = split_histories(ep) if os.path.exists(ep) else []
    if len(ehs) + sum((eres.get("fail_count") or {}).values()) < eres["evaluations"]:
        raise Infra("gated schedules: %d histories of %d" % (len(ehs), eres["evaluations"]))
    v, rj, _ = validate_all(ctx, ehs, "c15-excl", "directory/excl/not-linearizable")
    ctx.traces += v + rj
    ctx.extra["gated_schedules"] = eres["evaluations"]
    ctx.extra["gated_second_ran_while_first_parked"] = (eres.get("extra") or {}).get("second_ran_while_first_parked")

    ctx.extra["explanation"] = (
        "exhaustive TLC check of the sequential specification; every transition of its bounded state graph replayed "
        "on the real directory through 4 path assignments with the observation compared after every step; "
        "concurrent histories of the real directory decided linearizable by TLC; gated schedules for mutual exclusion")
    ctx.assumptions += [
        "error kinds are not part of the property: only success/failure, ids, visible infos and events are compared",
        "the order in which one connection delivers events is the order in which the server emitted them (C10)",
        "histories are short (<= 5 operations per client, <= 5 clients): small-scope hypothesis",
    ]

    # the directory's notifications under subscriber faults (DirFault.tla, design-notes/EXT-dirfault.md)
    import ext_dirfault
    ext_dirfault.run(ctx)

    # the registry across processes: a directory server, service servers registering through bus/services'
    # remote namespace (Reserve / Enable / Remove as requests on a link that can be cut), client sessions that
    # find a service through the directory and dial its server (Federation.tla, design-notes/EXT-federation.md)
    import ext_federation
    ext_federation.run(ctx, "C15")
