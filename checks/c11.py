"""C11 - losing the connection fails calls promptly instead of hanging them.

(a') ClientHold.tla: the same with the reader's shutdown held between its decision and the transport's
    Close (the harness blocks Close at its entry): calls started on the half-dead connection - with an
    end-of-stream the write side still accepts them - must fail once the shutdown goes on.
(a'') ClientSub.tla: the subscription's cancel function (abort branch of the forwarding goroutine:
    RemoveHandler - valid or stale - then close of the events channel) in every order with the loss.
(a) Client.tla (bus/client.go over EndPoint.tla and a stream that can fail): TLC checks every interleaving
    of 2 concurrent calls (or 1 call + subscription + disconnect callback), a peer answering whole or in two
    pieces, possibly before the send has returned, and a Fail / peer close / local Close placed anywhere:
    invariants OkMeansReplied, NoFaultNoError (early reply is delivered), LateCallsFail, callback at most once,
    and under fairness: every call ends, the subscription closes, the callback fires once.
(b) GenClient: the harness plays the environment one command at a time (start call, let the write return,
    reply, half reply, rest, event, subscribe, register callback, fail / eof / close); between commands the
    client's goroutines run to quiescence in every order; each (quiescent state, command) transition is
    replayed on a real bus.Client over a harness-owned stream whose Write is a gate; after every command the
    per-call status (pending / in write / value / error), subscription channel, events and callback count must
    be the specification's, reached within a bound.
"""
import json, re
from vlib import Infra
import c17


def annotate(tests):
    allowed = {}
    for t in tests:
        key = json.dumps([[o["o"], o["a"]] for o in t])
        p = t[-1]["post"]
        allowed.setdefault(key, [])
        if p not in allowed[key]:
            allowed[key].append(p)
    seen, out = set(), []
    for t in tests:
        key = json.dumps([[o["o"], o["a"]] for o in t])
        if key in seen:
            continue
        seen.add(key)
        for i, o in enumerate(t):
            k = json.dumps([[x["o"], x["a"]] for x in t[:i + 1]])
            o["allowed"] = allowed.get(k, [o["post"]])
        out.append(t)
    return out, sum(1 for v in allowed.values() if len(v) > 1)


def run(ctx):
    thorough = ctx.tier == "thorough"
    # side by side: calls / subscription + callback / the subscription's cancel function racing the loss /
    # the shutdown held between the reader's decision and the transport's Close (half-dead connection)
    ctx.design_check_many([("Client", "MCClient_calls.cfg"), ("Client", "MCClient_sub.cfg"), ("ClientSub", "MCClientSub.cfg"),
                           ("ClientHold", "MCClientHold_thorough.cfg" if thorough else "MCClientHold.cfg")],
                          workers_each=4, parallel=4, timeout=3400)
    replayed = 0
    races = 0
    cfgs = [("GenClient", "GenClient_calls.cfg"), ("GenClient", "GenClient_sub.cfg"), ("GenClientHold", "GenClientHold.cfg"),
            ("GenClientSub", "GenClientSub.cfg")] + \
           ([("GenClient", "GenClient_thorough.cfg")] if thorough else [])
    for module, cfg in cfgs:
        g = ctx.tlc(module, cfg, workers=1, count=False, timeout=3000)
        if g.violated:
            raise Infra("GenClient %s: %s" % (cfg, g.violated))
        tests, multi = annotate(g.printed("T"))
        races += multi
        if len(tests) < (300 if cfg != "GenClientSub.cfg" else 100):
            raise Infra("too few behaviours from %s: %d" % (cfg, len(tests)))
        tp = ctx.path(cfg + ".tests.ndjson")
        with open(tp, "w") as f:
            for t in tests:
                f.write(json.dumps(t) + "\n")
        res = c17.run_harness(ctx, ["client", tp, ctx.path(cfg + ".trace.ndjson")], "client replay " + cfg)
        if res is None:
            continue
        hung = (res.get("fail_count") or {}).get("client/hang", 0) >= 3
        if res["evaluations"] != len(tests) and not hung:
            raise Infra("replayed %d of %d behaviours" % (res["evaluations"], len(tests)))
        ctx.failures(res["failures"])
        replayed += res["evaluations"]
        for s in res["samples"][:3]:
            ctx.sample(s)
        ctx.extra.setdefault("diverged_to_other_allowed_outcome", 0)
        ctx.extra["diverged_to_other_allowed_outcome"] += (res.get("extra") or {}).get("diverged_to_other_allowed_outcome", 0)
    ctx.traces += replayed
    ctx.extra.update({"behaviours_replayed": replayed, "command_sequences_with_several_allowed_outcomes": races,
                      "exhaustive": True,
                      "explanation": "exhaustive TLC check of the client/fault model; every (quiescent state, command) transition replayed on a real bus.Client"})
    ctx.assumptions += ["fault model: after Fail every later read and write of the stream errors and a blocked read is woken (what tcp/unix/tls do); half-open streams are out of scope",
                        "'within bounded time' = 10 s on an in-process stream whose normal latency is microseconds"]

    # the outgoing path and the shutdown of an end point whose peer stops draining (EndPointStall.tla, hosted by C17
    # as well): a Close() that does not return, or handlers a shutdown leaves open, are calls in flight that never fail
    import ext_stall
    ext_stall.run(ctx)
