"""The repository's own test suite as a trace corpus (DESIGN 4.6): the working tree is copied to the
scratch directory, `go test -tags verif` is run there with QILOOP_VERIF_TRACE set, and the recorded hook
events are cut into per-instance traces that TLC validates against the component's trace specification."""
import json, os, subprocess, glob, shutil
from vlib import Infra, GOENV, log
import tracecheck

NUMERIC = ("slot", "h", "m", "err", "len")


def record(ctx, packages, timeout=1500, runs=1):
    """Runs the repository's tests of `packages` with the hooks on; returns the list of ndjson files."""
    wt = ctx.path("corpus-repo")
    if not os.path.isdir(wt):
        subprocess.check_call(["rsync", "-a", "--exclude", ".git", ctx.repo + "/", wt + "/"])
    td = ctx.path("corpus-traces")
    shutil.rmtree(td, ignore_errors=True)
    os.makedirs(td)
    tmpd = ctx.path("tmp")
    os.makedirs(tmpd, exist_ok=True)
    e = dict(os.environ)
    e.update(GOENV)
    e["GOFLAGS"] = "-mod=readonly"
    e["QILOOP_VERIF_TRACE"] = os.path.join(td, "t")
    e["TMPDIR"] = tmpd
    try:
        p = subprocess.run(["go", "test", "-tags", "verif", "-vet=off", "-count=%d" % runs, "-p", "2", "-timeout", "12m"] + packages,
                           cwd=wt, env=e, stdout=subprocess.PIPE, stderr=subprocess.STDOUT, text=True, timeout=timeout)
    except subprocess.TimeoutExpired:
        return None, ["(timeout)"], ""
    failed = [l for l in p.stdout.splitlines() if l.startswith(("--- FAIL", "FAIL", "panic:"))]
    files = sorted(glob.glob(os.path.join(td, "t.*")))
    if not files:
        raise Infra("the repository's tests recorded no trace:\n" + p.stdout[-2000:])
    return files, failed, p.stdout


def endpoint_traces(files, max_handlers):
    """Per-endpoint traces, handler identities renumbered 1.. per endpoint, ordered by the process-wide
    sequence number.  closer/qclose events carry no endpoint: they follow the handler."""
    out, skipped = [], 0
    for f in files:
        evs = [json.loads(l) for l in open(f) if l.strip()]
        evs = [e for e in evs if e.get("comp") == "endpoint"]
        evs.sort(key=lambda e: e["seq"])
        owner = {}
        for e in evs:
            if e["ev"] == "make":
                owner[e["h"]] = e["inst"]
        per = {}
        for e in evs:
            inst = e["inst"]
            if e["ev"] in ("closer", "qclose"):
                inst = owner.get(e["h"])
                if inst is None:
                    continue
            per.setdefault(inst, []).append(e)
        for inst, lst in sorted(per.items()):
            ren = {}
            recs = []
            for e in lst:
                r = {"ev": e["ev"], "seq": e["seq"]}
                for k in NUMERIC:
                    r[k] = -1
                if "h" in e:
                    r["h"] = ren.setdefault(e["h"], len(ren) + 1)
                if "slot" in e:
                    r["slot"] = e["slot"]
                if "len" in e:
                    r["len"] = e["len"]
                if "err" in e:
                    r["err"] = 1 if e["err"] else 0
                if "id" in e:
                    r["m"] = e["id"]
                recs.append(r)
            if len(ren) > max_handlers:
                skipped += 1
                continue
            out.append({"file": os.path.basename(f), "inst": inst, "events": recs, "handlers": len(ren)})
    return out, skipped


def validate_endpoints(ctx, packages, klass="endpoint/corpus-trace-rejected", max_handlers=400, selftest=True, runs=1):
    files, failed, stdout = record(ctx, packages, runs=runs)
    if files is None or any("panic: test timed out" in l for l in failed):
        # the repository's own tests finish in well under a minute; with the same hooks they did not finish in
        # 12 minutes on this tree: a hang of the code under test (they hang without the hooks as well)
        ctx.failure("endpoint/corpus-tests-do-not-terminate", "the repository's own tests (./bus/... ./examples/...) did not "
                    "terminate within 12 minutes when run with the hooks on", {"packages": packages})
        return False
    traces, skipped = endpoint_traces(files, max_handlers)
    if not traces:
        raise Infra("no endpoint trace in the corpus")
    path = ctx.path("corpus-endpoint.ndjson")
    n = 0
    with open(path, "w") as f:
        for t in traces:
            f.write(json.dumps(dict({"ev": "reset", "seq": 0}, **{k: -1 for k in NUMERIC})) + "\n")
            for r in t["events"]:
                f.write(json.dumps(r) + "\n")
                n += 1
    ok = tracecheck.validate(ctx, "TraceEndPointFree", "TraceEndPointFree.cfg", path, "endpoints of the repository's own tests", klass)
    if ok:
        ctx.traces += len(traces)
        if selftest:
            def double_closer(evs):
                for i, e in enumerate(evs):
                    if e["ev"] == "closer":
                        return evs[:i + 1] + [e] + evs[i + 1:]
                return None

            def wrong_slot(evs):
                seen = 0
                for i, e in enumerate(evs):
                    if e["ev"] == "make":
                        seen += 1
                        if seen == 3:
                            g = dict(e); g["slot"] = e["slot"] + 1
                            return evs[:i] + [g] + evs[i + 1:]
                return None

            def lost_qclose(evs):
                for i, e in enumerate(evs):
                    if e["ev"] == "qclose" and i + 1 < len(evs) and evs[i + 1]["ev"] == "removed":
                        return evs[:i] + evs[i + 1:]
                return None
            for mut, what in ((double_closer, "closer twice"), (wrong_slot, "wrong slot"), (lost_qclose, "queue not closed")):
                tracecheck.selftest_reject(ctx, "TraceEndPointFree", "TraceEndPointFree.cfg", path, mut, "corpus " + what)
    ctx.extra["corpus"] = {"packages": packages, "endpoint_instances": len(traces), "events": n, "skipped_too_many_handlers": skipped,
                           "repository_tests_failed_with_hooks_on": failed[:5]}
    return ok
