"""Shared machinery for /verif checks.

One check = one python module checks/<id>.py exposing run(ctx).  The context
offers:  a scratch directory (outside /repo and /verif, removed on exit), the
TLC runner + output parser, the harness builder/runner (built from the current
working tree of the repository with -tags verif), the known-findings filter,
and the evidence writer.

Exit codes (DESIGN.md 5.1): 0 held / 1 violation observed on the real code /
2 infrastructure problem (never a verdict).
"""
import json, os, re, shutil, subprocess, sys, tempfile, time, hashlib

VERIF = os.path.dirname(os.path.dirname(os.path.abspath(__file__)))
REPO = os.environ.get("VERIF_REPO", "/repo")
TLA_CP = "/opt/veriftools/tla/tla2tools.jar:/opt/veriftools/tla/CommunityModules-deps.jar"

GOENV = {
    "GOFLAGS": "-mod=mod",
    "GOPROXY": "off",
    "GOSUMDB": "off",
    "GOTOOLCHAIN": "local",
}


class Infra(Exception):
    """Anything that is not a verdict about the code: exit 2."""


def log(*a):
    print("[check]", *a, file=sys.stderr, flush=True)


# ----------------------------------------------------------------------------
# TLC
# ----------------------------------------------------------------------------
class TLCResult:
    def __init__(self, out, rc, wall):
        self.out = out
        self.rc = rc
        self.wall = wall
        self.generated = 0
        self.distinct = 0
        self.depth = 0
        m = None
        for m in re.finditer(r"(\d+) states generated, (\d+) distinct states found", out):
            pass
        if m:
            self.generated = int(m.group(1))
            self.distinct = int(m.group(2))
        m = re.search(r"The depth of the complete state graph search is (\d+)", out)
        if m:
            self.depth = int(m.group(1))
        self.ok = "Model checking completed. No error has been found" in out
        self.sim = "Simulation" in out or "simulation" in out
        self.violated = re.findall(r"Invariant (\S+) is violated", out)
        self.violated += re.findall(r"Action property (\S+) is violated", out)
        if "Temporal properties were violated" in out or re.search(r"Temporal property \S+ was violated", out):
            self.violated.append("<temporal>")
        if "Deadlock reached" in out:
            self.violated.append("<deadlock>")
        self.postcond_failed = bool(re.search(r"Postcondition \S+ .*is false", out))
        self.error = None
        m = re.search(r"^Error: (.*)$", out, re.M)
        if m and not self.violated and not self.postcond_failed:
            self.error = m.group(1)

    def printed(self, tag):
        """Values printed by PrintT(<<"tag", ToJson(x)>>) -> list of python objects."""
        res = []
        prefix = '<<"%s", "' % tag
        for line in self.out.splitlines():
            if line.startswith(prefix) and line.endswith('">>'):
                body = line[len(prefix):-3]
                # TLC escapes \ and " inside strings
                body = body.replace('\\"', '"').replace("\\\\", "\\")
                try:
                    res.append(json.loads(body))
                except Exception as e:  # pragma: no cover
                    raise Infra("cannot parse TLC print: %s (%s)" % (line[:200], e))
        return res

    def coverage_zero(self):
        """Actions/expressions with zero count under -coverage (names of actions)."""
        zero = []
        for m in re.finditer(r"^<(\w+) line .*>: 0:0$", self.out, re.M):
            zero.append(m.group(1))
        return sorted(set(zero))

    def action_counts(self):
        d = {}
        for m in re.finditer(r"^<(\w+) line \d+, col \d+ to line \d+, col \d+ of module (\w+)>: (\d+):(\d+)$", self.out, re.M):
            d[m.group(1)] = d.get(m.group(1), 0) + int(m.group(4))
        return d


class Ctx:
    def __init__(self, pid, tier, seed, replay=None):
        self.pid = pid
        self.tier = tier
        self.seed = seed
        self.replay = replay
        self.t0 = time.time()
        self.scratch = tempfile.mkdtemp(prefix="verif-%s-" % pid, dir=os.environ.get("VERIF_SCRATCH", "/tmp"))
        self.repo = REPO
        self.harness_bins = {}
        self.states = 0
        self.transitions = 0
        self.traces = 0
        self.samples = []
        self.extra = {}
        self.assumptions = []
        self.violations = []      # list of dict(klass, detail, case)
        self.known_hit = {}       # finding id -> count
        self.tlc_runs = []
        self.model_only = []
        self.observations = {}    # class -> [count, first detail]: behaviour an extension module demands and the
                                  # property's statement does not - reported, never a verdict
        self.kf = load_known_findings(pid)
        self.deadline = None

    # -- scratch ------------------------------------------------------------
    def cleanup(self):
        shutil.rmtree(self.scratch, ignore_errors=True)

    def path(self, *p):
        return os.path.join(self.scratch, *p)

    # -- TLC ----------------------------------------------------------------
    def tlc(self, module, cfg, workers=None, timeout=600, simulate=None, depth=None,
            env=None, coverage=False, dfs=False, extra=None, name=None, count=True,
            expect_ok=True, seed=None):
        """Run TLC on spec/<module>.tla with spec/<cfg> in a private copy of spec/."""
        d = tempfile.mkdtemp(prefix="tlc-", dir=self.scratch)
        for f in os.listdir(os.path.join(VERIF, "spec")):
            if f.endswith(".tla") or f.endswith(".cfg"):
                shutil.copy(os.path.join(VERIF, "spec", f), d)
        if workers is None:
            workers = 8
        jopts = ["-XX:+UseParallelGC", "-Xss512m", "-Djava.io.tmpdir=" + d]
        if dfs:
            jopts.append("-Dtlc2.tool.queue.IStateQueue=StateDeque")
        heap = os.environ.get("VERIF_TLC_HEAP", "8g")
        jopts.append("-Xmx" + heap)
        cmd = ["java"] + jopts + ["-cp", TLA_CP, "tlc2.TLC", "-workers", str(workers),
                                  "-metadir", os.path.join(d, "states"), "-config", cfg]
        if simulate:
            cmd += ["-simulate", simulate]
        if depth:
            cmd += ["-depth", str(depth)]
        if seed is not None:
            cmd += ["-seed", str(seed)]
        if coverage:
            cmd += ["-coverage", "1"]
        if extra:
            cmd += extra
        cmd += [module]
        e = dict(os.environ)
        e.pop("JAVA_TOOL_OPTIONS", None)
        if env:
            e.update(env)
        t = time.time()
        try:
            p = subprocess.run(cmd, cwd=d, env=e, stdout=subprocess.PIPE, stderr=subprocess.STDOUT,
                               timeout=timeout, text=True, errors="replace")
        except subprocess.TimeoutExpired:
            raise Infra("TLC timeout after %ss: %s %s" % (timeout, module, cfg))
        r = TLCResult(p.stdout, p.returncode, time.time() - t)
        shutil.rmtree(os.path.join(d, "states"), ignore_errors=True)
        r.dir = d
        self.tlc_runs.append({"module": module, "cfg": cfg, "name": name or cfg, "generated": r.generated,
                              "distinct": r.distinct, "depth": r.depth, "wall_s": round(r.wall, 2),
                              "ok": r.ok, "violated": r.violated, "simulate": simulate})
        if count:
            self.states += r.distinct
            self.transitions += r.generated
        if r.error or (expect_ok and not r.ok and not r.violated and not simulate and not r.postcond_failed):
            tail = "\n".join(r.out.splitlines()[-40:])
            raise Infra("TLC error in %s/%s: %s\n%s" % (module, cfg, r.error, tail))
        return r

    # -- TLAPS --------------------------------------------------------------
    def tlaps(self, module, timeout=900, threads=8):
        """Checks the proofs of spec/proofs/<module>.tla with the TLA+ proof system (tlapm), in a private copy next to
        the specification modules it extends.  Returns the number of proof obligations, all of which must be proved:
        an unproved obligation is a defect of the specification or of the proof, i.e. infrastructure, never a verdict
        about the code."""
        d = tempfile.mkdtemp(prefix="tlaps-", dir=self.scratch)
        for f in os.listdir(os.path.join(VERIF, "spec")):
            if f.endswith(".tla"):
                shutil.copy(os.path.join(VERIF, "spec", f), d)
        shutil.copy(os.path.join(VERIF, "spec", "proofs", module + ".tla"), d)
        e = dict(os.environ, TMPDIR=d, HOME=d)
        t = time.time()
        try:
            p = subprocess.run(["tlapm", "--threads", str(threads), "--cache-dir", os.path.join(d, "cache"), module + ".tla"], cwd=d, env=e,
                               stdout=subprocess.PIPE, stderr=subprocess.STDOUT, timeout=timeout, text=True, errors="replace")
        except subprocess.TimeoutExpired:
            raise Infra("tlapm timeout after %ss: %s" % (timeout, module))
        m = re.search(r"All (\d+) obligations? proved", p.stdout)
        if p.returncode != 0 or not m:
            raise Infra("tlapm: unproved obligations in %s\n%s" % (module, "\n".join(p.stdout.splitlines()[-40:])))
        n = int(m.group(1))
        self.extra.setdefault("tlaps", []).append({"module": module, "obligations_proved": n, "wall_s": round(time.time() - t, 1)})
        return n

    def design_check(self, module, cfg, **kw):
        """Exhaustive check that must pass: a violated invariant in the property
        configuration is a defect of the *specification*, i.e. infrastructure."""
        r = self.tlc(module, cfg, **kw)
        if not r.ok:
            tail = "\n".join(r.out.splitlines()[-60:])
            raise Infra("design check %s/%s failed: %s\n%s" % (module, cfg, r.violated, tail))
        return r

    def design_check_many(self, jobs, workers_each=4, parallel=3, timeout=3000):
        """Several exhaustive design checks side by side: jobs = [(module, cfg), ...].  Each must pass."""
        from concurrent.futures import ThreadPoolExecutor
        with ThreadPoolExecutor(parallel) as ex:
            futs = [ex.submit(self.design_check, m, c, workers=workers_each, timeout=timeout) for m, c in jobs]
            return [f.result() for f in futs]

    # -- harness ------------------------------------------------------------
    def build_harness(self, family, tags="verif", race=False):
        """Builds harness/cmd/<family> from the repository's current working tree (race: with Go's race detector)."""
        key = family + ("-race" if race else "")
        if key in self.harness_bins:
            return self.harness_bins[key]
        dst = self.path("harness")
        e = dict(os.environ)
        e.update(GOENV)
        if not os.path.isdir(dst):
            src = os.path.join(VERIF, "harness")
            shutil.copytree(src, dst, ignore=shutil.ignore_patterns("bin", "*.test"))
            gm = open(os.path.join(dst, "go.mod")).read()
            gm = re.sub(r"replace github.com/lugu/qiloop => \S+", "replace github.com/lugu/qiloop => " + self.repo, gm)
            open(os.path.join(dst, "go.mod"), "w").write(gm)
            shutil.copy(os.path.join(self.repo, "go.sum"), os.path.join(dst, "go.sum"))
        out = self.path("harness-%s.bin" % key)
        t = time.time()
        p = subprocess.run(["go", "build"] + (["-race"] if race else []) + ["-tags", tags, "-o", out, "./cmd/" + family], cwd=dst, env=e,
                           stdout=subprocess.PIPE, stderr=subprocess.STDOUT, text=True)
        if p.returncode != 0:
            # a tree that does not build is not a verdict about the property
            raise Infra("harness build failed:\n" + p.stdout[-4000:])
        log("harness %s built in %.1fs" % (key, time.time() - t))
        self.harness_bins[key] = out
        self.harness_src = dst
        return out

    def harness(self, family, args, timeout=600, input=None, env=None, check=True, race=False):
        """Run harness/cmd/<family> <args>; returns (rc, stdout, stderr)."""
        b = self.build_harness(family, race=race)
        e = dict(os.environ)
        e["VERIF_SEED"] = str(self.seed)
        e["VERIF_TIER"] = self.tier
        e["VERIF_SCRATCH_DIR"] = self.scratch
        e["VERIF_REPO"] = self.repo
        # temporary files of the code under test (unix sockets of util.NewUnixAddr ...) stay in the scratch directory
        tmpd = self.path("tmp")
        os.makedirs(tmpd, exist_ok=True)
        e["TMPDIR"] = tmpd
        e.update(GOENV)
        if env:
            e.update(env)
        try:
            p = subprocess.run([b] + args, cwd=self.scratch, env=e, input=input, stdout=subprocess.PIPE,
                               stderr=subprocess.PIPE, timeout=timeout, text=True, errors="replace")
        except subprocess.TimeoutExpired as ex:
            raise Infra("harness timeout after %ss: %s %s" % (timeout, family, " ".join(args)))
        if check and p.returncode not in (0,):
            raise Infra("harness %s %s exited %d:\n%s" % (family, " ".join(args), p.returncode, p.stderr[-4000:]))
        return p.returncode, p.stdout, p.stderr

    def harness_json(self, family, args, **kw):
        rc, out, err = self.harness(family, args, **kw)
        try:
            return json.loads(out)
        except Exception:
            raise Infra("harness %s %s: output is not JSON:\n%s\n%s" % (family, " ".join(args), out[-2000:], err[-2000:]))

    # -- verdicts -------------------------------------------------------------
    def failure(self, klass, detail, case=None):
        """Report one observed failure of the real code.  klass identifies *what
        fails*; known_findings.json is keyed by it."""
        f = match_finding(self.kf, klass, detail, case)
        if f is not None:
            self.known_hit[f["id"]] = self.known_hit.get(f["id"], 0) + 1
            return False
        self.violations.append({"class": klass, "detail": detail, "case": case})
        return True

    def failures(self, lst):
        for f in lst or []:
            self.failure(f.get("class", "unclassified"), f.get("detail", ""), f.get("case"))

    def observe(self, klass, detail, case=None):
        """A deviation from an extension module's specification that lies OUTSIDE the statement of the hosting
        property: printed and kept in the evidence, it never makes the check fail."""
        o = self.observations.setdefault(klass, [0, detail[:700], case])
        o[0] += 1

    def failures_scoped(self, lst, in_scope):
        """failures whose class is in the property's scope are verdicts, the others observations"""
        for f in lst or []:
            if in_scope(f.get("class", "")):
                self.failure(f.get("class", "unclassified"), f.get("detail", ""), f.get("case"))
            else:
                self.observe(f.get("class", "unclassified"), f.get("detail", ""), f.get("case"))

    def sample(self, s, limit=8):
        if len(self.samples) < limit:
            self.samples.append(s)

    # -- finish ---------------------------------------------------------------
    def finish(self):
        ev = {
            "property_id": self.pid,
            "tier": self.tier,
            "seed": self.seed,
            "level": "model_checking",
            "coverage": {
                "states": self.states,
                "transitions": self.transitions,
                "traces_validated_against_impl": self.traces,
                "samples": self.samples[:12] or ["(none)"],
                "tlc_runs": self.tlc_runs,
                "known_findings_hit": self.known_hit,
                "model_only": self.model_only,
                "observations_outside_the_property": {k: {"count": v[0], "first": v[1]} for k, v in self.observations.items()},
            },
            "assumptions": self.assumptions,
            "wall_s": round(time.time() - self.t0, 2),
            "violations": len(self.violations),
        }
        ev["coverage"].update(self.extra)
        evdir = os.environ.get("VERIF_EVIDENCE_DIR") or os.path.join(VERIF, "evidence")
        os.makedirs(evdir, exist_ok=True)
        tmp = os.path.join(evdir, ".%s.json.tmp" % self.pid)
        with open(tmp, "w") as f:
            json.dump(ev, f, indent=1, sort_keys=True, default=str)
        os.replace(tmp, os.path.join(evdir, "%s.json" % self.pid))
        for fid, n in sorted(self.known_hit.items()):
            f = [x for x in self.kf if x["id"] == fid][0]
            print("KNOWN-FINDING: property=%s %s [%s, %d case(s) in this run]" % (self.pid, f["what"], fid, n))
        for k, v in sorted(self.observations.items()):
            print("OBSERVATION (outside the statement of %s, no verdict): class=%s count=%d first=%s" % (self.pid, k, v[0], v[1][:300]))
        if self.violations:
            os.makedirs(os.path.join(evdir, "replays"), exist_ok=True)
            # group by class: one replay file per class
            seen = {}
            for v in self.violations:
                seen.setdefault(v["class"], []).append(v)
            for klass, vs in seen.items():
                h = hashlib.sha1(klass.encode()).hexdigest()[:10]
                p = os.path.join(evdir, "replays", "%s-%s.json" % (self.pid, h))
                with open(p, "w") as f:
                    json.dump({"property": self.pid, "class": klass, "tier": self.tier, "seed": self.seed,
                               "count": len(vs), "cases": vs[:20],
                               "rerun": "bin/check %s --tier %s" % (self.pid, self.tier)}, f, indent=1, default=str)
                print("VIOLATION property=%s replay=%s" % (self.pid, p))
                print("  class=%s count=%d first=%s" % (klass, len(vs), json.dumps(vs[0], default=str)[:600]))
            return 1
        return 0


# ----------------------------------------------------------------------------
# known findings
# ----------------------------------------------------------------------------
def load_known_findings(pid):
    """known_findings/<pid>.json: {"findings": [{id, property, class, where?, what}], "fixed": [...]}"""
    p = os.path.join(VERIF, "known_findings", "%s.json" % pid)
    if not os.path.exists(p):
        return []
    d = json.load(open(p))
    return [f for f in d.get("findings", []) if f.get("property") == pid]


def match_finding(kf, klass, detail, case):
    for f in kf:
        if f.get("class") != klass:
            continue
        ok = True
        # optional predicates over the case record: every key must match (regex on str(value))
        for k, pat in (f.get("where") or {}).items():
            v = case.get(k) if isinstance(case, dict) else None
            if v is None or not re.fullmatch(pat, str(v)):
                ok = False
                break
        if ok:
            return f
    return None


# ----------------------------------------------------------------------------
# entry point used by bin/check
# ----------------------------------------------------------------------------
TIMING_CLASS = re.compile(r"hang|blocked|unanswered|never-answered|not-answered|does-not-return|not-return|stall|timeout|"
                          r"no-answer|not-served|not-noticed|stops-serving|not-reached|never-returns", re.I)


def timing_only(violations):
    """every verdict is of a class that says 'did not happen within a wall-clock bound'"""
    return bool(violations) and all(TIMING_CLASS.search(v.get("class", "")) for v in violations)


def main(argv):
    import argparse, importlib
    ap = argparse.ArgumentParser()
    ap.add_argument("pid")
    ap.add_argument("--tier", default=os.environ.get("VERIF_TIER", "quick"))
    ap.add_argument("--replay", default=None)
    a = ap.parse_args(argv)
    if a.tier not in ("quick", "thorough"):
        a.tier = "quick"
    try:
        seed = int(os.environ.get("VERIF_SEED", "1"))
    except ValueError:
        seed = 1
    sys.path.insert(0, os.path.join(VERIF, "checks"))
    ctx = Ctx(a.pid, a.tier, seed, a.replay)
    rc = 2
    try:
        mod = importlib.import_module(a.pid.lower())
        mod.run(ctx)
        if ctx.violations and timing_only(ctx.violations) and not os.environ.get("VERIF_NO_RERUN") and not a.replay:
            # Every verdict of this run says that something did not happen within a wall-clock bound.  Code that
            # blocks does so again; a goroutine that was not scheduled in time on a loaded machine does not.  The
            # run is repeated once and a timing verdict stands only if its class is reported again (verdicts from
            # reproduced behaviour only, DESIGN.md 5.1 / 11.5).
            log("only wall-clock verdicts (%s): the check is run once more, a verdict needs the reproduction"
                % sorted({v["class"] for v in ctx.violations}))
            ctx2 = Ctx(a.pid, a.tier, seed, a.replay)
            try:
                mod.run(ctx2)
                again = {v["class"] for v in ctx2.violations}
                dropped = sorted({v["class"] for v in ctx.violations} - again)
                if not timing_only(ctx2.violations):
                    ctx2.extra["first_run_timing_verdicts"] = sorted({v["class"] for v in ctx.violations})
                    ctx, ctx2 = ctx2, ctx          # the second run found more than timing: it is the run reported
                else:
                    ctx.violations = [v for v in ctx.violations if v["class"] in again]
                    ctx.extra["timing_verdicts_not_reproduced_in_a_second_run"] = dropped
                    ctx.extra["second_run_wall_s"] = round(time.time() - ctx2.t0, 1)
            finally:
                ctx2.cleanup()
        rc = ctx.finish()
    except Infra as e:
        print("INFRA-ERROR property=%s: %s" % (a.pid, e), file=sys.stderr)
        rc = 2
    except Exception:
        import traceback
        traceback.print_exc()
        rc = 2
    finally:
        if not os.environ.get("VERIF_KEEP"):
            ctx.cleanup()
        else:
            log("scratch kept:", ctx.scratch)
    return rc
