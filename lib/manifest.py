#!/usr/bin/env python3
"""Regenerates MANIFEST.json from checks/registry.json (one entry per claimed property)."""
import json, os, subprocess
V = os.path.dirname(os.path.dirname(os.path.abspath(__file__)))
reg = {"claimed": {}, "unclaimed": {}, "notes": "Model-based verification with explicit TLA+ specifications (spec/), TLC, and a Go conformance harness (harness/) that replays TLC behaviours into the code and records traces for TLC. See DESIGN.md."}
rd = os.path.join(V, "checks", "registry.d")
for f in sorted(os.listdir(rd)):
    if f.endswith(".json"):
        d = json.load(open(os.path.join(rd, f)))
        if d.get("not_applicable"):
            reg["unclaimed"][f[:-5]] = d["not_applicable"]
        else:
            reg["claimed"][f[:-5]] = d
props = [json.loads(l) for l in open(os.path.join(V, "properties.jsonl"))]
hooks = subprocess.run(["git", "-C", "/repo", "log", "--format=%H %s"], stdout=subprocess.PIPE, text=True).stdout.splitlines()
hook_commits = [l.split()[0] for l in hooks if " verif hooks:" in " " + l.split(" ", 1)[1] or l.split(" ", 1)[1].startswith("verif hooks")]
m = {
    "version": 1,
    "setup_cmd": "bin/setup",
    "hooks": {
        "guard": "verif",
        "enable": "go build -tags verif (package github.com/lugu/qiloop/vhook: hook_on.go / hook_off.go; call sites are add-only one-liners)",
        "baseline_off_cmd": "cd /repo && GOFLAGS=-mod=readonly GOPROXY=off GOSUMDB=off GOTOOLCHAIN=local go test -vet=off -count=1 -timeout 25m ./...",
        "source_commits": list(reversed(hook_commits)),
        "add_only": True,
    },
    "engines": [
        {"name": "tlc", "path": "spec/", "serves_properties": sorted(reg["claimed"].keys()),
         "kind_free_text": "TLA+ specifications checked with TLC (exhaustive for small constants, simulation beyond); TLC also exports vectors/behaviours and validates recorded traces"},
        {"name": "harness", "path": "harness/", "serves_properties": sorted(reg["claimed"].keys()),
         "kind_free_text": "Go conformance harness built with -tags verif from /repo's working tree: replays TLC behaviours into the code, records traces for TLC"},
    ],
    "checks": [],
    "not_applicable": [],
    "notes": reg.get("notes", ""),
}
for p in props:
    pid = p["id"]
    c = reg["claimed"].get(pid)
    if not c:
        m["not_applicable"].append({"property_id": pid, "reason": reg["unclaimed"].get(pid, "check not built yet in this round; not claimed")})
        continue
    m["checks"].append({
        "property_id": pid,
        "quick_cmd": "bin/check %s --tier quick" % pid,
        "thorough_cmd": "bin/check %s --tier thorough" % pid,
        "evidence_file": "evidence/%s.json" % pid,
        "replay_cmd_template": "bin/check %s --replay {path}" % pid,
        "engine": "tlc+harness",
        "level_claimed": {"category": "model_checking", "text": c["text"], "design_ref": c.get("design_ref", "DESIGN.md 6")},
        "level_note": c["note"],
        "technique": c["technique"],
    })
json.dump(m, open(os.path.join(V, "MANIFEST.json"), "w"), indent=1)
print("claimed:", [c["property_id"] for c in m["checks"]])
