"""Helpers shared by checks that validate recorded traces with TLC."""
import json, os, random
from vlib import Infra


def validate(ctx, module, cfg, trace_path, what, klass, timeout=1800, count=False):
    """Runs the trace specification on an ndjson trace.  Returns True if accepted; on rejection
    reports a failure of class `klass` with the offending line and its predecessors."""
    n = sum(1 for _ in open(trace_path))
    if n == 0:
        raise Infra("empty trace " + trace_path)
    r = ctx.tlc(module, cfg, workers=1, timeout=timeout, env={"TRACE": trace_path}, count=count,
                expect_ok=False, name="%s:%s" % (cfg, what))
    if r.ok and not r.postcond_failed and not r.violated:
        return True
    rej = r.printed("REJECTED")
    if r.violated and not rej:
        ctx.failure(klass + "/invariant", "%s: invariant %s violated while validating the recorded trace" % (what, r.violated),
                    {"trace": what, "invariants": r.violated})
        return False
    if not rej:
        tail = "\n".join(r.out.splitlines()[-30:])
        raise Infra("trace validation of %s failed without a verdict:\n%s" % (what, tail))
    line = rej[0]["line"]
    ctxlines = []
    with open(trace_path) as f:
        for i, l in enumerate(f, 1):
            if line - 12 <= i <= line:
                ctxlines.append(json.loads(l))
    ctx.failure(klass, "%s: the implementation's trace is not a behaviour of the specification: line %d (%s) cannot follow"
                % (what, line, rej[0]["event"].get("ev")), {"trace": what, "line": line, "event": rej[0]["event"], "before": ctxlines})
    return False


def selftest_reject(ctx, module, cfg, trace_path, mutate, what):
    """Binding self-test: a corrupted copy of an accepted trace must be rejected."""
    lines = open(trace_path).read().splitlines()
    out = mutate([json.loads(l) for l in lines])
    if out is None:
        raise Infra("self-test %s: nothing to corrupt in the trace" % what)
    p = trace_path + ".corrupt"
    with open(p, "w") as f:
        for e in out:
            f.write(json.dumps(e) + "\n")
    r = ctx.tlc(module, cfg, workers=1, timeout=900, env={"TRACE": p}, count=False, expect_ok=False,
                name="%s:selftest-%s" % (cfg, what))
    if r.ok and not r.postcond_failed and not r.violated:
        raise Infra("binding self-test failed: corrupted trace (%s) was accepted by %s" % (what, module))
    os.remove(p)
    return True
